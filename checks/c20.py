"""C20 - gene models keep exons, introns and coding regions as exact partitions; rejected updates are atomic
(on a transcript: SetExons / Add; on a gene: SetFeatures, where Start/End/Len must stay with the retained features).

(A) Gene.tla explored by TLC: every SetExons argument list of the bounded domain is accepted iff it is
    acceptable (same transcript, pairwise disjoint, one exon at zero) and what is then held is sorted, disjoint
    and tiles [0, Len) alternately with its introns; every cut of a transcript of length <= L into exons/introns
    (abutting exons, single exon) is accepted as cut; UTR5.CDS.UTR3 tile in strand order for all CDS bounds and
    orientation chains; PositionWithin/BasePositionOf compose additively and OrientationWithin/BaseOrientationOf
    multiplicatively along every chain; OneToZero/ZeroToOne are mutually inverse where defined; in the update
    machine (SetExons / Exons().Add on a transcript, s = s.Add on a bare Exons value with spare capacity, histories
    of any length) a rejected call leaves the exon sequence and the returned slice exactly as they were; in the
    gene machine (SetFeatures with every list of <= MaxFeats features in [0, LG), in every order, located on the gene
    or elsewhere) a call is accepted iff all features are on the gene and one starts at 0, a rejected call leaves
    Features() and the length as they were, and after any history the gene reaches exactly to the largest end of
    the features it retains.
    Negative controls that TLC must refute: "asfound" (Add sorts the appended slice in place, gene.go:362-363),
    "overlap_le" (abutting exons rejected), "utr_swap" (UTRs from the same end on both strands), "glen_early"
    (SetFeatures accumulates the largest end in the gene's length before its validation has finished).
(B) TLC emits the cases of a bounded model (argument lists, cuts, CDS bounds x chains, chains x positions, every
    (held, spare capacity, call) edge of the update machine, every (features held, SetFeatures call) edge of the gene
    machine); harness/gened runs them on gene.NonCodingTranscript, gene.CodingTranscript, bare gene.Exons values
    built with the stated spare capacity, and gene.Gene values holding real transcripts.
(C) harness/gened enumerates histories on a tiny universe (capacities as the runtime leaves them), transcripts of
    1..48 exons (spare capacity behind SetExons), histories of accepted / rejected SetFeatures calls on genes (valid
    sets of 1-3 transcripts of different lengths, foreign feature first / last, no zero start, no feature), chains of
    998..1003 features around the documented limit, and seeded random gene models on transcripts of length <= 10^4
    plus random SetFeatures histories (features up to 10^4 long, foreign / negative / shifted starts).
Every logged call is judged by GeneTrace.tla with the operators of Gene.tla.  A binding self-test corrupts one
logged field per event type and requires the trace specification to reject exactly those events.
"""
import concurrent.futures, json, os, shutil
import vlib

SPEC = "Gene"
NEG_EXPECT = {
    "asfound": ("RejectedAtomic", "HeldContract", "AcceptedResult"),
    "overlap_le": ("AcceptedIffAcceptable", "CutsAccepted", "AcceptedTiles"),
    "utr_swap": ("UTRsTile",),
    "glen_early": ("GeneRejectedAtomic", "GeneBoundsAgree"),
}


def _gen(work, name, repl, seed):
    out = os.path.join(work, name)
    r = vlib.tlc(SPEC, "Gene", None, cfg_text=vlib.subst_cfg(SPEC, "GeneGen.cfg", repl), env={"OUT": out},
                 workers=4, timeout=1500)
    vlib.tlc_expect_ok(r, "GeneGen " + name)
    if not os.path.exists(out):
        raise vlib.Infra("GeneGen emitted no cases (%s)" % name)
    return out, r


def _uniq_lines(paths):
    seen, lines, raw = set(), [], 0
    for p in paths:
        with open(p) as f:
            for line in f:
                raw += 1
                if line.strip() and line not in seen:
                    seen.add(line)
                    lines.append(line)
    return lines, raw


def replay_case(e):
    """The driver case that makes the call of event e again on the real code."""
    op = e["op"]
    if op == "add":
        if e["holder"] == "bare":
            return {"op": "hist", "holder": "bare", "before": e["before"], "spare": e["spare"],
                    "calls": [{"call": "add", "xs": e["xs"]}]}
        calls = ([{"call": "set", "xs": e["before"]}] if e["before"] else []) + [{"call": "add", "xs": e["xs"]}]
        return {"op": "hist", "holder": e["holder"], "calls": calls}
    if op == "set":
        calls = ([{"call": "set", "xs": e["before"]}] if e["before"] else []) + [{"call": "set", "xs": e["xs"]}]
        return {"op": "hist", "holder": e["holder"], "calls": calls}
    if op == "gset":
        calls = ([{"call": "setfeatures", "xs": e["before"]}] if e["before"] else []) + [{"call": "setfeatures", "xs": e["xs"]}]
        return {"op": "ghist", "offset": e["offset"], "calls": calls}
    if op == "view":
        return {"op": "hist", "holder": e["kind"], "chain": e.get("chain", []), "cs": e["cs"], "ce": e["ce"],
                "calls": [{"call": "set", "xs": e.get("exons", [])}]}
    if op == "map":
        return {"op": "map", "chain": e["chain"], "pos": e["pos"], "real": e["real"], "refs": e["refs"]}
    return {"op": "conv", "p": e["p"]}


def _mutants(events):
    """One corrupted copy per event type of events the specification accepts (binding self-test)."""
    out = []

    def first(pred):
        for e in events:
            try:
                if pred(e):
                    return json.loads(json.dumps(e))
            except (KeyError, IndexError):
                pass
        return None

    e = first(lambda e: e["op"] == "add" and e["err"] == "" and len(e["ret"]) >= 2 and e["old"] == e["before"])
    if e:
        e["ret"] = e["ret"][:-1]
        out.append(("accepted Add: returned slice loses an exon", e))
    e = first(lambda e: e["op"] == "add" and e["err"] != "" and e["before"] and e["old"] == e["before"] == e["ret"]
              and e["xs"][0] != e["before"][0])
    if e:
        e["old"] = [e["xs"][0]] + e["old"][1:]
        e["ret"] = e["old"]
        out.append(("rejected Add: old exon replaced by the new one", e))
    e = first(lambda e: e["op"] == "add" and e["err"] == "exons overlap" and e["old"] == e["before"] == e["ret"])
    if e:
        e["err"] = ""
        out.append(("overlapping Add reported as accepted", e))
    e = first(lambda e: e["op"] == "set" and e["err"] == "" and len(e["after"]) >= 2)
    if e:
        e["after"] = e["after"][::-1]
        out.append(("accepted SetExons: exons held unsorted", e))
    e = first(lambda e: e["op"] == "set" and e["err"] != "" and e["before"] and e["after"] == e["before"] and e["xs"])
    if e:
        e["after"] = e["xs"]
        out.append(("rejected SetExons: arguments stored", e))
    e = first(lambda e: e["op"] == "gset" and e["err"] != "" and e["before"] and e["glen"] == e["lenbefore"] > 0)
    if e:
        e["glen"] -= 1
        e["gend"] -= 1
        out.append(("rejected SetFeatures: the gene got shorter", e))
    e = first(lambda e: e["op"] == "gset" and e["err"] != "" and e["before"] and e["xs"] and e["xs"] != e["before"])
    if e:
        e["after"], e["afterids"] = e["xs"], e["xsids"]
        out.append(("rejected SetFeatures: arguments stored", e))
    e = first(lambda e: e["op"] == "gset" and e["err"] == "" and len(e["xs"]) >= 2 and e["glen"] > 0)
    if e:
        e["glen"] += 1
        e["gend"] += 1
        out.append(("accepted SetFeatures: gene longer than its features", e))
    e = first(lambda e: e["op"] == "gset" and e["err"] != "" and e["panic"] == "" and any(x[2] != 0 for x in e["xs"]))
    if e:
        e["err"] = ""
        e["after"], e["afterids"] = e["xs"], e["xsids"]
        out.append(("SetFeatures with a foreign feature reported as accepted", e))
    e = first(lambda e: e["op"] == "view" and len(e["introns"]) >= 1 and e["introns"][0][1] > e["introns"][0][0])
    if e:
        e["introns"][0][0] += 1
        out.append(("view: intron does not start where the exon ends", e))
    e = first(lambda e: e["op"] == "view" and e["kind"] == "coding" and e["utrpanic"] == "" and e["utr5"] != e["utr3"]
              and e["exons"])
    if e:
        e["utr5"], e["utr3"] = e["utr3"], e["utr5"]
        out.append(("view: UTRs on the wrong ends", e))
    e = first(lambda e: e["op"] == "view" and e["exons"] and e["tlen"] > 0)
    if e:
        e["tlen"] += 1
        e["tend"] += 1
        out.append(("view: transcript longer than its last exon", e))
    e = first(lambda e: e["op"] == "map" and e["bp"][0] == 1 and len(e["chain"]) >= 3)
    if e:
        e["bp"][1] += 1
        out.append(("map: base position off by one", e))
    e = first(lambda e: e["op"] == "map" and any(o == [1, -1] for o in e["ow"]))
    if e:
        i = [k for k, o in enumerate(e["ow"]) if o == [1, -1]][0]
        e["ow"][i] = [1, 1]
        out.append(("map: orientation not multiplied", e))
    e = first(lambda e: e["op"] == "map" and len(e["chain"]) == 1000 and e["bp"][0] == 1)
    if e:
        e["bp"] = [0]
        out.append(("map: panic within the documented depth", e))
    e = first(lambda e: e["op"] == "conv" and e["p"] > 0)
    if e:
        e["o2z"] = [1, e["p"]]
        out.append(("conv: OneToZero does not shift", e))
    return out


def _nontrivial(e):
    op = e["op"]
    if op == "add":
        return bool(e["before"]) and bool(e["xs"])
    if op == "set":
        return len(e["xs"]) >= 2
    if op == "gset":
        return bool(e["before"])
    if op == "view":
        return len(e.get("exons", [])) >= 2
    if op == "map":
        return len(e["chain"]) >= 2
    return e["p"] != 0


def _judge(ck, work, sources, label):
    """Validate the union of the traces (each distinct event once) plus the self-test mutants."""
    lines, raw = _uniq_lines([p for _, p in sources])
    events = [json.loads(l) for l in lines]
    muts = _mutants(events)
    if len(muts) < 14:
        raise vlib.Infra("binding self-test could build only %d of 16 corrupted events" % len(muts))
    mlines = [json.dumps(m, separators=(",", ":")) + "\n" for _, m in muts]
    alll = mlines + lines
    nchunks = max(1, min(4, len(alll) // 4000))
    # round robin: event j (0-based) of chunk i is line j * nchunks + i (large random models are spread out)

    def one(i):
        p = os.path.join(work, "%s-%d.ndjson" % (label, i))
        chunk = alll[i::nchunks]
        open(p, "w").writelines(chunk)
        v, r = vlib.validate(SPEC, "GeneTrace", "GeneTrace.cfg", p, timeout=3000)
        if v["events"] != len(chunk):
            raise vlib.Infra("trace validation consumed %d of %d events" % (v["events"], len(chunk)))
        return v, r

    with concurrent.futures.ThreadPoolExecutor(nchunks) as ex:
        results = list(ex.map(one, range(nchunks)))
    v = {"fails": [], "failkinds": {}, "driftkinds": {}}
    for i, (vi, r) in enumerate(results):
        ck.mc("trace:%s[%d]" % (label, i), r, "%d events" % vi["events"])
        v["fails"] += [[(k - 1) * nchunks + i + 1, why] for k, why in vi["fails"]]
        for key in ("failkinds", "driftkinds"):
            d = vi.get(key)
            for m, c in (d.items() if isinstance(d, dict) else []):
                v[key][m] = v[key].get(m, 0) + c
    vlib.log("  [trace] %d distinct events (%d logged) + %d corrupted, %d chunk(s)" % (len(events), raw, len(muts), nchunks))
    failed = {}
    for k, why in v["fails"]:
        failed.setdefault(k, []).append(why)
    missed = [what for i, (what, _) in enumerate(muts) if (i + 1) not in failed]
    if missed:
        raise vlib.Infra("binding self-test: GeneTrace.tla accepted corrupted events: %s" % "; ".join(missed))
    vlib.log("  [selftest] %d corrupted events, all rejected by GeneTrace.tla" % len(muts))
    nm = len(muts)
    real = [(k - nm, whys) for k, whys in failed.items() if k > nm]
    fk = v.get("failkinds") or {}
    total = sum(fk.values()) if isinstance(fk, dict) else 0
    mut_fail_msgs = sum(len(failed[i + 1]) for i in range(nm))
    total -= mut_fail_msgs
    # smallest failing input of every (holder, message) group first, then the rest by size
    real.sort(key=lambda kw: (len(lines[kw[0] - 1]), kw[0]))
    groups, order = {}, []
    for k, whys in real:
        e = events[k - 1]
        groups.setdefault((e.get("holder", e.get("kind", e["op"])), tuple(whys)), []).append((k, whys))
    while any(groups.values()):
        for g in sorted(groups):
            if groups[g]:
                order.append(groups[g].pop(0))
    for k, whys in order:
        e = events[k - 1]
        ck.violation("%s: %s" % ("; ".join(whys), json.dumps(e, separators=(",", ":"))[:900]),
                     {"kind": "gene-event", "event": e, "why": whys, "case": replay_case(e)})
    if total > sum(len(w) for _, w in real):
        vlib.log("  (%d failing judgements in all; the trace specification keeps the first %d with their events)" %
                 (total, len(v["fails"])))
    # the self-test's messages are not findings
    if isinstance(fk, dict):
        for i in range(nm):
            for why in failed[i + 1]:
                fk[why] = fk.get(why, 0) - 1
        fk = {m: c for m, c in fk.items() if c > 0}
    # diagnosis (no verdict): are the violating Add events what the as-found variant of Gene.tla predicts?
    bad_adds = [lines[k - 1] for k, _ in real if events[k - 1]["op"] == "add"]
    if bad_adds:
        p = os.path.join(work, label + "-asfound.ndjson")
        open(p, "w").writelines(bad_adds)
        va, r = vlib.validate(SPEC, "GeneTrace", "GeneTrace.cfg", p, consts={"Variant": '"asfound"'}, timeout=3000)
        explained = len(bad_adds) - len({k for k, _ in va["fails"]})
        ck.mc("trace:asfound-diagnosis", r, "%d of %d violating Add events are exactly what Variant=asfound predicts" %
              (explained, len(bad_adds)))
        ck.extra["violating_adds_explained_by_asfound_variant"] = "%d of %d" % (explained, len(bad_adds))
    if isinstance(fk, dict) and fk:
        ck.extra["fail_messages"] = fk
    dk = v.get("driftkinds") or {}
    if isinstance(dk, dict) and dk:
        ck.extra["model_drift"] = dk
        for m, n in sorted(dk.items()):
            vlib.log("  [note] drift x%d: %s" % (n, m))
    ck.traces += len(events)
    ck.evaluations += len(events)
    return events


def run(ck, tier):
    thorough = tier == "thorough"
    ck.rule = ("a case is one logged call (Exons.Add, SetExons, Gene.SetFeatures), one view of a transcript (exons, introns, UTR5/CDS/UTR3), "
               "one evaluation of the four mapping functions on a nesting chain, or one conversion pair; non-trivial = Add on "
               "a non-empty slice, SetExons/view with >= 2 exons, SetFeatures on a gene that holds features, chains of >= 2 features, conversions of p # 0; distinct by content")
    ck.assumptions = [
        "exons have length >= 1 (sort.Sort is not stable: with zero-length exons sharing a start the outcome of Add is not a function of its input)",
        "positions stay below 2^31 (TLC integers); orientations are -1, 0, 1",
        "the spare capacity of a transcript's own exon slice is whatever append left (observed and logged, not constructed)",
        "which of several applicable errors a rejected call reports, an ACCEPTED Add rewriting the slice it was called on, and the "
        "exact depth beyond 1000 features at which the 'chain too long' panic starts are conformance notes (drift), not verdicts",
        "trusted: TLC, the driver's reading of exons/regions through the exported methods, pointer identity for location ids",
    ]
    # (A) model checking
    mc = {}
    if thorough:
        mc = {"L": 9, "MaxArgs": 3, "Starts": "{0, 3, 7}", "MaxDepth": 4, "LH": 5, "MaxArgsH": 2, "MaxSpare": 3, "LG": 3}
    r = vlib.tlc(SPEC, "Gene", None, cfg_text=vlib.subst_cfg(SPEC, "GeneMC.cfg", mc), workers=16, timeout=3400)
    vlib.tlc_expect_ok(r, "GeneMC")
    ck.mc("GeneMC", r, "laws over all cases + update machines of transcript and gene (histories of any length)")
    ck.exhaustive = True
    r = vlib.tlc(SPEC, "Gene", "GeneNeg.cfg", workers=4, timeout=900)
    if r.violated not in NEG_EXPECT["asfound"]:
        raise vlib.Infra("negative control asfound (Add sorts in place) not refuted (%s)\n%s" % (r.violated, r.out[-1500:]))
    ck.mc("GeneNeg(asfound)", r, "in-place sort refuted: %s" % r.violated)
    for variant, kinds in (("overlap_le", '{"args", "cut"}'), ("utr_swap", '{"utr"}'), ("glen_early", '{"gene"}')):
        cfg = vlib.subst_cfg(SPEC, "GeneNeg.cfg", {"Variant": '"%s"' % variant, "Kinds": kinds, "L": 5, "MaxDepth": 2})
        r = vlib.tlc(SPEC, "Gene", None, cfg_text=cfg, workers=4, timeout=900)
        if r.violated not in NEG_EXPECT[variant]:
            raise vlib.Infra("negative control %s not refuted (%s)\n%s" % (variant, r.violated, r.out[-1500:]))
        ck.mc("GeneNeg(%s)" % variant, r, "refuted: %s" % r.violated)

    work = vlib.scratch("c20-")
    try:
        # (B) cases of the bounded model, emitted by TLC
        ga = {"MaxArgs": 3, "MaxSpare": 2, "MaxDepth": 4, "LG": 3} if thorough else {"MaxArgs": 2, "MaxSpare": 1}
        c1, r = _gen(work, "cases1.ndjson", ga, ck.seed)
        ck.mc("GeneGen(cases)", r, "argument lists, CDS bounds x chains, chains x positions, update-machine edges (transcript, gene)")
        c2, r = _gen(work, "cases2.ndjson", {"Kinds": '{"cut"}', "L": 8 if thorough else 7}, ck.seed)
        ck.mc("GeneGen(cuts)", r, "every cut of a transcript of length <= %d" % (8 if thorough else 7))
        clines, _ = _uniq_lines([c1, c2])
        cases = os.path.join(work, "cases.ndjson")
        open(cases, "w").writelines(clines)
        t1 = os.path.join(work, "t-cases.ndjson")
        p = vlib.harness(["gene", "cases", "-in", cases, "-out", t1] + (["-big"] if thorough else []), cmd="vgene")
        vlib.log("  [driver] TLC cases: %s" % p.stdout.strip())
        # (C) enumerated and random
        t2 = os.path.join(work, "t-exh.ndjson")
        p = vlib.harness(["gene", "exhaustive", "-out", t2] + (["-big"] if thorough else []), cmd="vgene")
        vlib.log("  [driver] enumerated: %s" % p.stdout.strip())
        t3 = os.path.join(work, "t-rand.ndjson")
        n = 1200 if thorough else 120
        p = vlib.harness(["gene", "random", "-seed", ck.seed, "-n", n, "-out", t3] + (["-big"] if thorough else []),
                         cmd="vgene")
        vlib.log("  [driver] random: %s" % p.stdout.strip())
        events = _judge(ck, work, [("cases", t1), ("exhaustive", t2), ("random", t3)], "gene")
        ck.extra["tlc_cases_replayed"] = len(clines)
        nt = sum(1 for e in events if _nontrivial(e))
        ck.nontrivial = nt
        byop = {}
        for e in events:
            byop[e["op"]] = byop.get(e["op"], 0) + 1
        ck.extra["events_by_op"] = byop
        spare_tr = [e for e in events if e["op"] == "add" and e["holder"] != "bare" and e["spare"] > 0]
        ck.extra["transcript_adds_with_runtime_spare_capacity"] = len(spare_tr)
        ck.extra["max_exons_in_a_call"] = max([len(e.get("before", [])) + len(e.get("xs", [])) for e in events] or [0])
        rej = [e for e in events if e["op"] == "gset" and e["err"] != "" and e["before"]]
        ck.extra["rejected_setfeatures_on_genes_holding_features"] = len(rej)
        ck.extra["of_which_arguments_reach_elsewhere_than_the_gene_did"] = sum(
            1 for e in rej if max([x[0] + x[1] for x in e["xs"]] or [0]) != e["lenbefore"])
        for op in ("add", "set", "gset", "view", "map", "conv"):
            for e in events:
                if e["op"] == op and _nontrivial(e) and len(json.dumps(e)) < 700:
                    ck.samples.append({"source": "harness/gened", "event": e})
                    break
    finally:
        shutil.rmtree(work, ignore_errors=True)


def replay(path):
    obj = json.load(open(path))["replay"]
    work = vlib.scratch("c20r-")
    try:
        src = os.path.join(work, "case.ndjson")
        open(src, "w").write(json.dumps(obj["case"]) + "\n")
        out = os.path.join(work, "t.ndjson")
        vlib.harness(["gene", "cases", "-in", src, "-out", out], cmd="vgene")
        evs = vlib.read_ndjson(out)
        v, r = vlib.validate(SPEC, "GeneTrace", "GeneTrace.cfg", out)
        for e in evs:
            vlib.log(json.dumps(e, separators=(",", ":"))[:1500])
        if v["fails"]:
            vlib.log("VIOLATION property=C20 replay=%s" % path)
            for k, why in v["fails"]:
                vlib.log("  what: event %d: %s" % (k, why))
            return 1
        vlib.log("replay accepted by the specification")
        return 0
    finally:
        shutil.rmtree(work, ignore_errors=True)
