"""C09 - see spec/Align (AlignDP.tla, AlignMC.tla, AlignTrace.tla) and checks/align_common.py."""
import align_common


def run(ck, tier):
    align_common.run_align(ck, tier, "C09")


def replay(path):
    return align_common.replay("C09", path)
